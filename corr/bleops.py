"""A real FakeBLE object on radio 0 of the extracted world, next to the Gallina model of fake_ble.py
(Ble/Ble.v via `run ble`): both execute the same op list; every result and the BLE-level state are
compared after every op.  The 32 bytes that advertise() loads are taken from the world's air log
(what the radio actually transmitted), the tuned frequency from its RF_CH register."""
import struct

import circuitpython_nrf24l01.fake_ble as FB
from circuitpython_nrf24l01.fake_ble import FakeBLE

from . import common
from . import world as W
from . import rf24ops as R

PA = {3: 0, 2: -6, 1: -12, 0: -18}


class Urandom:
    """deterministic stand-in for os.urandom (module global of fake_ble.py)"""

    def __init__(self, seed):
        self.r = common.rng(seed, "urandom")

    def __call__(self, n):
        return bytes(self.r.randrange(256) for _ in range(n))


def bts(b):
    b = bytes(b)
    return [len(b)] + list(b)


def item_dump(d):
    if isinstance(d, FB.TemperatureServiceData):
        return [1] + bts(d._data) + [int(round(d.data * 100)) if len(d._data) >= 3 else 0]
    if isinstance(d, FB.BatteryServiceData):
        return [2] + bts(d._data)
    if isinstance(d, FB.UrlServiceData):
        return [3] + bts(d._type) + bts(d._data)
    return [0] + bts(d)


def elem_dump(e):
    nm = e.name
    if isinstance(nm, str):
        nm = nm.encode("utf-8")
    out = bts(e.mac) + ([0] if nm is None else [1] + bts(nm)) + ([0] if e.pa_level is None else [1, e.pa_level])
    out += [len(e.data)]
    for d in e.data:
        out += item_dump(d)
    return out


class BleRun:
    def __init__(self, model, seed, busio=False):
        self.model = model
        self.world = W.World(model, "T")
        W.install_time(self.world)
        FB.urandom = Urandom(seed)
        spi, csn, ce = W.busio_parts(self.world, 0) if busio else W.spidev_parts(self.world, 0)
        self.o = FakeBLE(spi, csn, ce)
        self.world.air()
        self.enc = bts(self.o.mac)
        self.out = [-5] + self.state()
        self.last_frame = None
        self.last_exc = None

    def state(self):
        o = self.o
        pa = PA[(o._rf_setup >> 1) & 3]
        return ([o._curr_freq, o._channel, int(bool(o._show_dbm))] + ([0] if o._ble_name is None else [1] + bts(o._ble_name))
                + bts(o._mac) + [pa, len(o.rx_queue)])

    def snap(self):
        return W.parse_snaps(self.world.snap(), 1)[0][0]

    def step(self, op):
        """runs op on the real object, appends model encoding; returns the impl's result list"""
        o, name = self.o, op[0]
        self.last_exc = None
        self.last_frame = None
        res = None
        try:
            if name == "hop":
                self.enc += [1]
                o.hop_channel()
                res = [0]
            elif name == "channel=":
                self.enc += [2, op[1]]
                o.channel = op[1]
                res = [0]
            elif name == "name=":
                v = op[1]
                b = v.encode("utf-8") if isinstance(v, str) else v
                self.enc += [3, 0] if v is None else [3, 1] + bts(b)
                o.name = v
                res = [0]
            elif name == "show_pa_level=":
                self.enc += [4, int(bool(op[1]))]
                o.show_pa_level = op[1]
                res = [0]
            elif name == "mac=":
                o.mac = op[1]
                self.enc += [5] + bts(o.mac)     # whatever the setter made of it (urandom padding included)
                res = [0]
            elif name == "pa_level=":
                self.enc += [6, op[1]]
                o.pa_level = op[1]
                res = [0]
            elif name == "enter":
                o.__enter__()
                return None                      # no BLE-level effect; RF24.__enter__ is C09's business
            elif name == "exit":
                self.enc += [7]
                o.__exit__()
                res = [0]
            elif name == "len_available":
                self.enc += [8, op[1]]
                res = [0, o.len_available(bytes(op[1]))]
            elif name == "advertise":
                # op[1]: bytes (one chunk of data_type op[2]) or list of ready-made chunks
                if isinstance(op[1], (list, tuple)):
                    flat = b"".join(bytes(c) for c in op[1])
                else:
                    flat = (bytes([len(op[1]) + 1, op[2] & 255]) + bytes(op[1])) if op[1] else b""
                self.enc += [9] + bts(flat)
                self.world.air()
                if isinstance(op[1], (list, tuple)):
                    o.advertise(op[1])
                else:
                    o.advertise(op[1], op[2])
                lg = self.world.air()
                self.last_frame = lg[-1]["data"] if lg else None
                res = [0] + bts(self.last_frame if self.last_frame is not None else b"")
            elif name == "receive":
                self.enc += [10] + bts(op[1])
                self.world.inject(0, 0, op[1])
                res = [0, int(bool(o.available()))]
            elif name == "temp_encode":     # TemperatureServiceData().data = float -> bytes; the model gets round(value * 100)
                self.enc += [12, int(round(op[1] * 100))]
                sv = FB.TemperatureServiceData()
                sv.data = op[1]
                res = [0] + bts(sv._data)
            elif name == "read":
                self.enc += [11]
                e = o.read()
                self.last_elem = e
                res = [0, 0] if e is None else [0, 1] + elem_dump(e)
            else:
                raise KeyError(name)
        except (ValueError, IndexError, struct.error, OverflowError, UnicodeError, TypeError, AttributeError, W.Watchdog) as e:  # noqa
            self.last_exc = e
            code = {ValueError: 1, IndexError: 2, struct.error: 6, OverflowError: 10}.get(type(e), 8)
            if isinstance(e, UnicodeError):
                code = 8
            if isinstance(e, W.Watchdog):
                code = 9
            res = [code]
        self.out += [-1] + res + [-5] + self.state()
        return res

    def finish(self):
        self.out += [-2]
        mline = self.model.ask("run ble " + " ".join(str(x) for x in self.enc))
        return self.out, [int(x) for x in mline.split()]


def jop(op):
    out = []
    for a in op:
        if isinstance(a, (bytes, bytearray)):
            out.append({"bytes": bytes(a).hex()})
        elif isinstance(a, (list, tuple)):
            out.append({"seq": [bytes(x).hex() for x in a]})
        else:
            out.append(a)
    return out


def split_steps(stream):
    steps, cur = [], []
    for x in stream:
        if x in (-1, -2) and cur:
            steps.append(cur)
            cur = []
        cur.append(x)
    if cur:
        steps.append(cur)
    return steps


def compare(rep, domain, ops, iout, mout, key=None):
    if iout == mout:
        return True
    a, b = split_steps(iout), split_steps(mout)
    k = next((j for j in range(min(len(a), len(b))) if a[j] != b[j]), min(len(a), len(b)))
    rep.disagree(domain, {"ops": [jop(o) for o in ops], "first_differing_step": k - 1},
                 b[k][:60] if k < len(b) else None, a[k][:60] if k < len(a) else None, key)
    return False

"""The radio behind the SPI shims: the extracted Coq world model (Env/Radio.v, Env/World.v)
served by ocaml/modelrun.  The Python classes under test talk to it exactly as they talk
to a chip: CSN-framed SPI transfers and a CE pin.  Two shims are provided:
  * WorldSpiDev  -- spidev-style (class name ends in "SpiDev" => rf24.py picks SPIDevCtx)
  * WorldBusIO   -- busio-style, driven through the real adafruit_bus_device.SPIDevice
                    (which rf24_lite.py always uses)
Virtual time: every SPI transfer and every clock read advances a counter; time.sleep adds.
"""
from . import common


class Watchdog(Exception):
    """an API call polled the radio longer than any bounded wait could (the model's OutOfFuel)"""


class World:
    def __init__(self, model, plus="T", fates="-"):
        self.m = model
        self.n = len(plus)
        self.now_ns = 0
        self.spi_cost_ns = 10_000
        self.hooks = []  # callables run after every SPI transfer / sleep (multi-node scheduling)
        self.in_hook = False
        self.transfers = 0
        self.watchdog = None
        r = self.m.ask("wnew %s %s" % (plus, fates))
        assert r == "ok", r

    # --- primitive access
    def spi(self, i, mosi):
        self.transfers += 1
        if self.watchdog is not None and self.transfers > self.watchdog:
            raise Watchdog("more than %d SPI transfers in one call" % self.watchdog)
        self.now_ns += self.spi_cost_ns
        r = self.m.ask("wspi %d %s" % (i, common.hx(mosi)))
        if not r.startswith("x"):
            raise RuntimeError("world server: " + r)
        out = common.unhx(r)
        self.run_hooks()
        return out

    def ce(self, i, v):
        self.m.ask("wce %d %d" % (i, 1 if v else 0))

    def oracle(self, fates):
        self.m.ask("woracle %s" % (fates or "-"))

    def inject(self, i, pipe, data):
        self.m.ask("winject %d %d %s" % (i, pipe, common.hx(data)))

    def snap(self, i=None):
        line = self.m.ask("wsnap" if i is None else "wsnap %d" % i)
        return [int(x) for x in line.split()]

    def air(self):
        """returns and clears the air log: list of dicts"""
        ints = [int(x) for x in self.m.ask("wair").split()]
        n, ints = ints[0], ints[1:]
        out, p = [], 0

        def bts():
            nonlocal p
            k = ints[p]
            b = bytes(ints[p + 1: p + 1 + k])
            p += 1 + k
            return b

        for _ in range(n):
            frm = ints[p]
            p += 1
            addr = bts()
            data = bts()
            noack, attempts, ok, nr = ints[p: p + 4]
            p += 4
            raw = [(ints[p + 2 * k], ints[p + 2 * k + 1]) for k in range(nr)]
            p += 2 * nr
            out.append({"from": frm, "addr": addr, "data": data, "noack": bool(noack), "attempts": attempts,
                        "ok": bool(ok), "receivers": [(a, b & 7) for a, b in raw], "raw_receivers": raw,
                        "acked_by": [a for a, b in raw if b & 8],
                        # received but not stored: RX FIFO full, or taken for a re-transmission of the previous packet
                        # (same 2-bit PID, same payload) in every attempt -- the transmitter cannot tell
                        "dropped_by": sorted(a for a in set(x for x, _b in raw) if all(b & 16 for x, b in raw if x == a))})
        return out

    def run_hooks(self):
        if self.in_hook or not self.hooks:
            return
        self.in_hook = True
        try:
            for h in list(self.hooks):
                h()
        finally:
            self.in_hook = False

    # --- virtual clock (installed as the drivers' `time` module)
    def monotonic_ns(self):
        self.now_ns += 1_000
        self.run_hooks()
        return self.now_ns

    def monotonic(self):
        return self.monotonic_ns() / 1e9

    def sleep(self, s):
        self.now_ns += max(0, int(round(s * 1e9)))
        self.run_hooks()


def install_time(world):
    import circuitpython_nrf24l01.rf24 as a
    import circuitpython_nrf24l01.rf24_lite as b
    import circuitpython_nrf24l01.network.mixins as c
    import circuitpython_nrf24l01.rf24_mesh as d

    for mod in (a, b, c, d):
        mod.time = world


class CePin:
    def __init__(self, world, i):
        self.w, self.i, self._v = world, i, False

    def switch_to_output(self, value=False):
        self.value = value

    @property
    def value(self):
        return self._v

    @value.setter
    def value(self, v):
        self._v = bool(v)
        self.w.ce(self.i, self._v)


class CsnPin:
    """chip-select: only frames transactions (busio style)"""

    def __init__(self):
        self.value = True

    def switch_to_output(self, value=False):
        self.value = value


class WorldSpiDev:  # noqa: the name must end in "SpiDev"
    def __init__(self, world, i):
        self.w, self.i = world, i
        self.no_cs = True

    def open(self, bus, dev):
        pass

    def close(self):
        pass

    def xfer2(self, out, baud=0):
        return list(self.w.spi(self.i, bytes(out)))


class WorldBusIO:
    """busio.SPI look-alike; a transfer counts only while the chip-select pin is low"""

    def __init__(self, world, i, csn):
        self.w, self.i, self.csn = world, i, csn
        self.locked = False

    def try_lock(self):
        self.locked = True
        return True

    def unlock(self):
        self.locked = False

    def configure(self, **kw):
        pass

    def write(self, buf, **kw):
        if not self.csn.value:  # selected: a write-only transaction
            self.w.spi(self.i, bytes(buf))

    def write_readinto(self, out_buf, in_buf, out_start=0, out_end=None, in_start=0, in_end=None):
        out_end = len(out_buf) if out_end is None else out_end
        in_end = len(in_buf) if in_end is None else in_end
        assert not self.csn.value, "SPI transfer with chip-select high"
        miso = self.w.spi(self.i, bytes(out_buf[out_start:out_end]))
        n = in_end - in_start
        in_buf[in_start:in_end] = (bytes(miso) + bytes(n))[:n]


def spidev_parts(world, i):
    return WorldSpiDev(world, i), CsnPin(), CePin(world, i)


def busio_parts(world, i):
    csn = CsnPin()
    return WorldBusIO(world, i, csn), csn, CePin(world, i)


# --- snapshot decoding (same layout as Drv/RF24Run.v snap_radio)
def parse_snaps(ints, nradios):
    out, p = [], 0
    for _ in range(nradios):
        regs = ints[p: p + 30]
        p += 30
        a0, a1, atx = ints[p: p + 5], ints[p + 5: p + 10], ints[p + 10: p + 15]
        p += 15
        ce, irq = ints[p], ints[p + 1]
        p += 2
        nrx = ints[p]
        p += 1
        rx = []
        for _ in range(nrx):
            pipe, k = ints[p], ints[p + 1]
            rx.append((pipe, bytes(ints[p + 2: p + 2 + k])))
            p += 2 + k
        ntx = ints[p]
        p += 1
        tx = []
        for _ in range(ntx):
            kind, k = ints[p], ints[p + 1]
            tx.append((kind, bytes(ints[p + 2: p + 2 + k])))
            p += 2 + k
        out.append({"regs": regs, "p0": bytes(a0), "p1": bytes(a1), "tx_addr": bytes(atx), "ce": ce, "irq": irq,
                    "rx": rx, "tx": tx})
    return out, p

"""C06 -- reassembly never delivers a message that was not sent in full.

Arrival streams (fragments of up to 3 senders, dropped / delivered / delivered twice,
adjacent reorderings, interleavings, stray fragments, dequeues at arbitrary points) are
fed to the real FrameQueueFrag and to the extracted Coq model (Net/Queue.v
frag_enqueue); every observable is compared; an independent checker written from the
property text judges what the implementation hands out.
"""
import itertools
import json

from circuitpython_nrf24l01.network.structs import FrameQueueFrag

from . import common
from .netcodec import enc_frame, Stream, make_frame, obs_frame

TRUSTED = [
    "Coq 8.16.1 kernel incl. vm_compute (no native_compute); theorems closed under the global context",
    "hand-written Gallina model Net/Queue.v (frag_enqueue) of FrameQueueFrag, tied to the code by this differential run",
    "extraction (ExtrOcamlBasic, ExtrOcamlNativeString; no Extract Constant) + ocaml/modelrun.ml glue",
    "python harness corr/c06.py incl. the sender-side fragmenter and the delivered-message checker written from the property text",
]

FIRST, MORE, LAST = 148, 149, 150


def fragments(m):
    """frames a sender emits for message m = dict(frm,to,id,type,data)"""
    data = m["data"]
    n = len(data)
    if n <= 24:
        return [{"frm": m["frm"], "to": m["to"], "id": m["id"], "type": m["type"], "res": 0, "msg": data}]
    total = (n + 23) // 24
    out = []
    for c in range(total):
        sl = data[24 * c: 24 * c + 24]
        if c == total - 1:
            t, r = LAST, m["type"]
        elif c == 0:
            t, r = FIRST, total
        else:
            t, r = MORE, total - c
        out.append({"frm": m["frm"], "to": m["to"], "id": m["id"], "type": t, "res": r, "msg": sl})
    return out


def run_impl(stream):
    """stream: list of ("arr", frame dict, (msg index, frag index) or None) | ("deq",)"""
    q = FrameQueueFrag()
    obs, deliv = [], []
    for ev in stream:
        if ev[0] == "arr":
            fr = ev[1]
            obj = make_frame(fr)
            try:
                ret = q.enqueue(obj)
                obs.append([1 if ret else 0, 1 if obj.header.message_type == 131 and fr["type"] != 131 else 0])
            except Exception as e:  # reassembly must not raise on well-formed fragments
                obs.append([2, 0])
                deliv.append(("raise", type(e).__name__))
        else:
            f = q.dequeue()
            of = obs_frame(f)
            obs.append(of)
            if of is not None:
                deliv.append(("frame", of))
    fin = [len(q), q.max_queue_size]
    # drain what is left so that the checker sees everything that would be handed out
    rest = []
    while len(q):
        rest.append(obs_frame(q.dequeue()))
    return obs, fin, deliv, rest


def in_order_run_possible(arrivals, nfrags):
    """does the list of fragment indices contain 0,1,..,nfrags-1 as a subsequence?"""
    want = 0
    for i in arrivals:
        if i == want:
            want += 1
            if want == nfrags:
                return True
    return False


def judge(msgs, stream, obs, deliv, rest):
    """property-level verdict on the implementation's behaviour; returns (key, detail) or None"""
    complete = {}
    for k, m in enumerate(msgs):
        complete[(m["frm"], m["id"], m["type"] & 0xFF, bytes(m["data"]).hex(), m["to"])] = k
    nfr = [len(fragments(m)) for m in msgs]
    since = {k: [] for k in range(len(msgs))}  # fragment arrivals of msg k since its last delivery
    delivered = {k: 0 for k in range(len(msgs))}
    handed = []
    # replay the stream to keep `since` in step with dequeues
    di = 0
    for ev, o in zip(stream, obs):
        if ev[0] == "arr":
            if o and o[0] == 2:
                return ("C06/enqueue-raised", json.dumps(ev[1], default=lambda b: bytes(b).hex()))
            if ev[2] is not None:
                since[ev[2][0]].append(ev[2][1])
        elif o is not None:
            handed.append((o, dict((k, list(v)) for k, v in since.items())))
    for o in rest:
        handed.append((o, dict((k, list(v)) for k, v in since.items())))
    # every handed-out frame must be a complete sent message
    seen_k = {}
    for o, snap in handed:
        key = (o["frm"], o["id"], o["type"], o["msg"], o["to"])
        if key not in complete:
            # which kind of splice?
            return ("C06/delivered-message-never-sent",
                    "from %o id %d type %d len %d" % (o["frm"], o["id"], o["type"], len(o["msg"]) // 2))
        k = complete[key]
        seen_k[k] = seen_k.get(k, 0) + 1
    # at most once: a second delivery is tolerated only as the KNOWN complete-replay case
    for k, cnt in seen_k.items():
        if cnt > 1:
            arr = [ev[2][1] for ev in stream if ev[0] == "arr" and ev[2] is not None and ev[2][0] == k]
            # number of disjoint complete in-order runs in the arrivals
            runs, want = 0, 0
            for i in arr:
                if i == want:
                    want += 1
                    if want == nfr[k]:
                        runs += 1
                        want = 0
                elif i == 0:
                    want = 1
            if cnt <= runs:
                return ("C06/complete-replay-delivered-again", "message %d delivered %d times, %d complete runs" % (k, cnt, runs))
            return ("C06/message-delivered-twice", "message %d delivered %d times, %d complete runs" % (k, cnt, runs))
    return None


def enc_stream(stream):
    out = [1]
    for ev in stream:
        if ev[0] == "arr":
            out += [1] + enc_frame(ev[1])
        else:
            out += [2]
    return out


def dec_model(line, stream):
    s = Stream([int(x) for x in line.split()])
    obs = []
    for ev in stream:
        assert s.get() == -1
        if ev[0] == "arr":
            obs.append([s.get(), s.get()])
        else:
            obs.append(s.optframe())
    fin = [s.get(), s.get()]
    assert s.done()
    return obs, fin


def jcase(msgs, stream):
    return {"messages": [dict(m, data=bytes(m["data"]).hex()) for m in msgs],
            "stream": [["arr", dict(e[1], msg=bytes(e[1]["msg"]).hex()), e[2]] if e[0] == "arr" else ["deq"] for e in stream]}


def from_jcase(c):
    msgs = [dict(m, data=bytes.fromhex(m["data"])) for m in c["messages"]]
    stream = [("arr", dict(e[1], msg=bytes.fromhex(e[1]["msg"])), tuple(e[2]) if e[2] else None) if e[0] == "arr" else ("deq",)
              for e in c["stream"]]
    return msgs, stream


def check_batch(rep, model, cases, domain):
    outs = model.batch(["run queue " + " ".join(str(x) for x in enc_stream(st)) for _m, st in cases])
    for (msgs, stream), line in zip(cases, outs):
        obs, fin, deliv, rest = run_impl(stream)
        try:
            mobs, mfin = dec_model(line, stream)
        except Exception as e:
            mobs, mfin = "undecodable %s (%s)" % (line[:60], e), None
        v = judge(msgs, stream, obs, deliv, rest)
        nontriv = any(e[0] == "arr" and e[1]["type"] in (FIRST, MORE, LAST) for e in stream)
        case = jcase(msgs, stream)
        rep.seen(case["stream"], nontrivial=nontriv)
        rep.count("streams")
        rep.count("arrivals", sum(1 for e in stream if e[0] == "arr"))
        rep.count("dequeues", sum(1 for e in stream if e[0] == "deq"))
        rep.count("delivered", len([d for d in deliv if d[0] == "frame"]) + len(rest))
        if v:
            rep.finding(v[0], case, v[1])
        if (obs, fin) != (mobs, mfin):
            rep.disagree(domain, case, {"obs": mobs, "final": mfin}, {"obs": obs, "final": fin}, v[0] if v else None)
        rep.sample({"case": case, "impl_obs": obs}, limit=2)


def mk_msg(r, frm, fid, nfrag, typ=None, to=0):
    n = 24 * (nfrag - 1) + r.randrange(1, 25) if nfrag > 1 else r.randrange(0, 25)
    return {"frm": frm, "to": to, "id": fid, "type": r.randrange(0, 128) if typ is None else typ,
            "data": bytes(r.randrange(256) for _ in range(n))}


def one_message_patterns(r, nfrag):
    """all streams of one nfrag-fragment message with each fragment dropped/once/twice,
    crossed with: no swap or one adjacent swap, and a dequeue after every arrival or only at the end"""
    m = mk_msg(r, 0o1, 7, nfrag)
    fr = fragments(m)
    out = []
    for mult in itertools.product((0, 1, 2), repeat=nfrag):
        seq = []
        for i, k in enumerate(mult):
            seq += [i] * k
        variants = [seq]
        for j in range(len(seq) - 1):
            if seq[j] != seq[j + 1]:
                s2 = list(seq)
                s2[j], s2[j + 1] = s2[j + 1], s2[j]
                variants.append(s2)
        for s in variants:
            for deq_each in (False, True):
                st = []
                for i in s:
                    st.append(("arr", fr[i], (0, i)))
                    if deq_each:
                        st.append(("deq",))
                st.append(("deq",))
                out.append(([m], st))
    return out


def two_sender_interleavings(r, n1, n2, same_id=True):
    m1 = mk_msg(r, 0o1, 9, n1)
    m2 = mk_msg(r, 0o2, 9 if same_id else 10, n2)
    f1, f2 = fragments(m1), fragments(m2)
    out = []
    for pos in itertools.combinations(range(n1 + n2), n1):
        st, i1, i2 = [], 0, 0
        for p in range(n1 + n2):
            if p in pos:
                st.append(("arr", f1[i1], (0, i1)))
                i1 += 1
            else:
                st.append(("arr", f2[i2], (1, i2)))
                i2 += 1
        st += [("deq",), ("deq",), ("deq",)]
        out.append(([m1, m2], st))
    return out


def id_reuse_patterns(r):
    """one sender, one frame id, two different messages: the first is abandoned after 1..n-1 fragments (its write() failed,
    the application retries with the same header object and a refreshed payload; or the sender rebooted and counts ids
    from 0 again; or the 16-bit id wrapped), the second arrives completely -- in the sender's order"""
    out = []
    for na in (2, 3, 4):
        for nb in (2, 3, 4):
            for p in range(1, na):
                for same_type in (True, False):
                    ma = mk_msg(r, 0o1, 7, na, typ=33)
                    mb = mk_msg(r, 0o1, 7, nb, typ=33 if same_type else 34)
                    fa, fb = fragments(ma), fragments(mb)
                    for deq_mid in (False, True):
                        st = [("arr", fa[i], (0, i)) for i in range(p)]
                        if deq_mid:
                            st.append(("deq",))
                        st += [("arr", fb[i], (1, i)) for i in range(nb)] + [("deq",), ("deq",)]
                        out.append(([ma, mb], st))
    return out


def full_queue_patterns(r):
    """the reassembled message is refused (the queue holds 6 undelivered frames, or a frame with the same origin, id and
    type), the application then reads, and the tail of the refused message is received again"""
    out = []
    for nfrag in (2, 3):
        for typ in (0, 1, 2, 5):
            for how in ("full", "same-key"):
                for tail in (1, 2):
                    if tail >= nfrag + 1:
                        continue
                    big = mk_msg(r, 0o1, 40, nfrag, typ=typ)
                    fb = fragments(big)
                    if how == "full":
                        pre = [mk_msg(r, 0o2, 100 + j, 1, typ=9) for j in range(6)]
                    else:
                        pre = [mk_msg(r, 0o1, 40, 1, typ=typ)]      # same origin, id and type as the big one
                    msgs = pre + [big]
                    kbig = len(pre)
                    st = [("arr", fragments(m)[0], (j, 0)) for j, m in enumerate(pre)]
                    st += [("arr", fb[i], (kbig, i)) for i in range(nfrag)]
                    st += [("deq",)]
                    st += [("arr", fb[i], (kbig, i)) for i in range(nfrag - tail, nfrag)]
                    st += [("deq",)] * 8
                    out.append((msgs, st))
    return out


def random_stream(r):
    ns = r.randrange(1, 4)
    same = r.random() < 0.5
    msgs = []
    for s in range(ns):
        for j in range(r.randrange(1, 3)):
            msgs.append(mk_msg(r, [0o1, 0o2, 0o13][s], 5 if same else 5 + s + 10 * j, r.choice([1, 2, 2, 3, 3, 4, 5, 7]),
                               typ=r.choice([None, None, None, 131, 65, 0]), to=r.choice([0, 0, 0, 0o100])))
    # distinct (frm,id) keys are required of the sent set
    seenk, ms = set(), []
    for m in msgs:
        if (m["frm"], m["id"]) not in seenk:
            seenk.add((m["frm"], m["id"]))
            ms.append(m)
    msgs = ms
    lanes = []
    for k, m in enumerate(msgs):
        lane = []
        for i, fr in enumerate(fragments(m)):
            lane += [(fr, (k, i))] * r.choice([0, 1, 1, 1, 1, 2])
        # adjacent swaps
        for j in range(len(lane) - 1):
            if r.random() < 0.12:
                lane[j], lane[j + 1] = lane[j + 1], lane[j]
        lanes.append(lane)
    st = []
    while any(lanes):
        # mostly finish one sender's burst, sometimes interleave
        k = r.choice([i for i, l in enumerate(lanes) if l])
        burst = 1 if r.random() < 0.4 else len(lanes[k])
        for _ in range(min(burst, len(lanes[k]))):
            fr, tag = lanes[k].pop(0)
            st.append(("arr", fr, tag))
            if r.random() < 0.15:
                st.append(("deq",))
    if r.random() < 0.3:  # stray fragments with no first, from a sender that is not in the set
        fr = {"frm": 0o4, "to": 0, "id": r.choice([5, 99]), "type": r.choice([MORE, LAST]), "res": r.choice([1, 2, 3, 7]),
              "msg": bytes(r.randrange(256) for _ in range(r.randrange(1, 25)))}
        st.insert(r.randrange(len(st) + 1), ("arr", fr, None))
    st += [("deq",)] * r.randrange(0, 4)
    return msgs, st


def run(rep, model, tier, seed):
    r = common.rng(seed, "c06")
    rep.rule = ("arrival streams for FrameQueueFrag: (a) ALL drop/once/twice patterns of one message of 2..%d fragments, "
                "each with every single adjacent swap, dequeuing after every arrival or only at the end; (b) ALL "
                "interleavings of two senders' 2-3-fragment messages with equal and with different frame ids, and one sender re-using a "
                "frame id for a second message after abandoning the first; (c) random "
                "streams of 1..3 senders x 1..7 fragments with duplicates, swaps, stray fragments, dequeues; non-trivial = "
                "stream containing fragment frames; distinct = distinct stream")
    maxn = 4 if tier == "quick" else 5
    rep.rule = rep.rule % maxn
    corpus = []
    # regression corpus: F5 (LAST accepted after a gap), F6 (two senders spliced), F7 (duplicate LAST after dequeue)
    m3 = mk_msg(r, 0o1, 7, 3)
    f3 = fragments(m3)
    corpus.append(([m3], [("arr", f3[0], (0, 0)), ("arr", f3[2], (0, 2)), ("deq",)]))
    corpus.append(([m3], [("arr", f3[0], (0, 0)), ("arr", f3[1], (0, 1)), ("arr", f3[2], (0, 2)), ("deq",),
                          ("arr", f3[2], (0, 2)), ("deq",)]))
    ma, mb = mk_msg(r, 0o1, 9, 2), mk_msg(r, 0o2, 9, 2)
    fa, fb = fragments(ma), fragments(mb)
    corpus.append(([ma, mb], [("arr", fa[0], (0, 0)), ("arr", fb[1], (1, 1)), ("deq",)]))
    check_batch(rep, model, corpus, "corpus")
    cases = []
    for n in range(2, maxn + 1):
        cases += one_message_patterns(r, n)
    for n1, n2 in ((2, 2), (2, 3), (3, 3)):
        cases += two_sender_interleavings(r, n1, n2, True)
        cases += two_sender_interleavings(r, n1, n2, False)
    cases += id_reuse_patterns(r)
    cases += full_queue_patterns(r)
    for i in range(0, len(cases), 3000):
        check_batch(rep, model, cases[i:i + 3000], "exhaustive")
    rep.exhaustive.append("%d single-message drop/dup/swap patterns and two-sender interleavings" % len(cases))
    nrand = 6000 if tier == "quick" else 120000
    for i in range(0, nrand, 3000):
        check_batch(rep, model, [random_stream(r) for _ in range(min(3000, nrand - i))], "random")


def replay(path):
    d = json.load(open(path))
    model = common.Model()
    try:
        for w in d.get("witnesses", d.get("disagreements", []))[:5]:
            msgs, stream = from_jcase(w["case"])
            obs, fin, deliv, rest = run_impl(stream)
            line = model.ask("run queue " + " ".join(str(x) for x in enc_stream(stream)))
            print("stream:", json.dumps(w["case"]["stream"])[:600])
            print("  impl :", obs, fin)
            print("  model:", dec_model(line, stream))
            print("  checker verdict on impl:", judge(msgs, stream, obs, deliv, rest))
    finally:
        model.close()
    return 0

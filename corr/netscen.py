"""Multi-node scenarios for the network-level properties (C05, C07, C13, C14): real network
objects on the radios of one extracted world, driven sequentially (an exchange is atomic in
the world model, so a transmission lands in the receiver's RX FIFO and is processed when
that node's update() runs); the same op sequence runs on the Gallina node model
(Net/Node.v) and every observable is compared after every call.  Property checkers look at
the world snapshots, the air log and the queues."""
from . import common
from . import netops as NO

SUFFIX = bytes([0xC3, 0x3C, 0x33, 0xCE, 0x3E, 0xE3])


def parse_hdr(d):
    if len(d) < 8:
        return None
    return {"frm": d[0] | d[1] << 8, "to": d[2] | d[3] << 8, "id": d[4] | d[5] << 8, "type": d[6], "res": d[7],
            "msg": bytes(d[8:])}


def level_of(a):
    n = 0
    while a:
        a >>= 3
        n += 1
    return n


def parent_of(a):
    lv = level_of(a)
    return a & ((1 << (3 * (lv - 1))) - 1) if lv else 0


def lvl_addr(level):
    return 0 if level == 0 else 1 << ((level - 1) * 3)


class PipeAddr:
    """expected physical addresses, from the extracted (C04-proved) _pipe_address model"""

    def __init__(self, model):
        self.m = model
        self.cache = {}

    def get(self, allow_mc, a, p):
        k = (allow_mc, a, p)
        if k not in self.cache:
            r = self.m.ask("pa %s xcc %s %d %d" % ("T" if allow_mc else "F", common.hx(SUFFIX), a, p))
            self.cache[k] = common.unhx(r) if r.startswith("x") else None
        return self.cache[k]


def expected_p0(pa, obj, level=None):
    """pipe 0 right after _begin (level None) or after a multicast_level assignment: the level's shared
    address when multicast is allowed (at that moment), the node-unique address otherwise.
    (allow_multicast only takes effect when node_address / multicast_level is assigned: documented.)"""
    amc = bool(obj.allow_multicast)
    if level is None:
        return pa.get(True, lvl_addr(level_of(obj._addr)), 0) if amc else pa.get(False, obj._addr, 0)
    return pa.get(True, lvl_addr(min(4, max(0, level))), 0) if amc else None


def listening_violation(pa, snap, obj, want0):
    """C07's predicate on a world snapshot of the node's radio; want0 = expected RX_ADDR_P0 or None"""
    regs = snap["regs"]
    addr = obj._addr
    if regs[0] & 3 != 3:
        return "CONFIG = %02X: not powered up in RX mode" % regs[0]
    if not snap["ce"]:
        return "CE is low"
    if regs[2] != 0x3F:
        return "EN_RXADDR = %02X, expected 3F" % regs[2]
    if regs[1] != 0x3E:
        return "EN_AA = %02X, expected 3E" % regs[1]
    if regs[28] != 0x3F or not regs[29] & 4:
        return "DYNPD = %02X FEATURE = %02X: dynamic payloads not on" % (regs[28], regs[29])
    want1 = pa.get(True, addr, 1)
    if snap["p1"] != want1:
        return "RX_ADDR_P1 = %s, expected %s" % (snap["p1"].hex(), want1.hex())
    for p in range(2, 6):
        w = pa.get(True, addr, p)
        if regs[10 + p] != w[0]:
            return "RX_ADDR_P%d = %02X, expected %02X" % (p, regs[10 + p], w[0])
    if want0 is not None and snap["p0"] != want0:
        return "RX_ADDR_P0 = %s, expected %s" % (snap["p0"].hex(), want0.hex())
    return None


def topology(r, n_nodes, kinds=("network", "routing")):
    """a parent-closed address set containing the master"""
    addrs = [0]
    while len(addrs) < n_nodes:
        p = r.choice(addrs)
        lv = level_of(p)
        if lv >= 4:
            continue
        c = p | (r.randrange(1, 6) << (3 * lv))
        if c not in addrs and c != 0o4444:
            addrs.append(c)
    specs = []
    for i, a in enumerate(addrs):
        specs.append((i, r.choice(kinds), a))
    return specs


def tree_path(src, dst):
    """independent reading of 'up to the common ancestor, then down'"""
    def anc(a):
        out = [a]
        while a:
            a = parent_of(a)
            out.append(a)
        return out
    up = anc(src)
    down = anc(dst)
    common_anc = next(a for a in up if a in down)
    path = up[1: up.index(common_anc) + 1]
    d = down[: down.index(common_anc)]
    return path + d[::-1]

"""C08 -- RX/TX switching preserves the user's pipe-0 address and ACK reception.

Sequences of open_rx_pipe / close_rx_pipe / open_tx_pipe / auto-ack changes / listen
toggles / address_length changes on a real RF24 object over the extracted radio model,
compared call by call with the Gallina driver model, and judged by a checker written from
the property text (ghost state: the address the user last opened pipe 0 with).
"""
import itertools

from circuitpython_nrf24l01.rf24 import RF24

from . import common
from . import world as W
from . import rf24ops as R

TRUSTED = [
    "Coq 8.16.1 kernel incl. vm_compute (no native_compute); theorems closed under the global context",
    "environment model Env/Radio.v + Env/World.v (partial multi-byte register writes, EN_RXADDR, CE): modelled, not verified",
    "hand-written Gallina model Drv/RF24.v of rf24.py, tied to the code by this differential run",
    "extraction (ExtrOcamlBasic, ExtrOcamlNativeString; no Extract Constant) + ocaml/modelrun.ml glue (world server)",
    "python harness corr/c08.py, corr/rf24ops.py, corr/world.py incl. the pipe-0 checker",
]

A, B, C, S3, S2 = b"1Node", b"2Node", b"9Peer", b"abc", b"xy"
ALPHABET = [
    ("open_rx_pipe", 0, A), ("open_rx_pipe", 0, S3), ("open_rx_pipe", 1, B), ("close_rx_pipe", 0),
    ("open_tx_pipe", A), ("open_tx_pipe", C), ("open_tx_pipe", S2),
    ("auto_ack=", 0), ("auto_ack=", True), ("listen=", True), ("listen=", False),
    ("address_length=", 3), ("address_length=", 5),
]


def make_rf24(world, ri, k):
    spi, csn, ce = W.spidev_parts(world, ri)
    return RF24(spi, csn, ce)


class Checker:
    def start(self, impl, snaps):
        self.user0 = None  # register image of RX_ADDR_P0 right after the user's last open_rx_pipe(0, a)

    def air(self, k, log):
        return None

    def step(self, k, cur, op, res, prev, snaps, obj, log):
        s, p = snaps[0], prev[0]
        name = op[0]
        regs = s["regs"]
        aw = regs[3] + 2
        ok = res[0] == 0
        # CE discipline
        if name == "listen=":
            for reg, data, ce in log.reg_writes(0):
                if reg == 0 and ce:
                    return ("C08/role-changed-with-ce-high", "CONFIG written while CE was high during %r" % (op,))
            if ok and bool(s["ce"]) != bool(op[1]):
                return ("C08/ce-level-after-listen", "CE is %d after listen = %r" % (s["ce"], op[1]))
        elif s["ce"] != p["ce"]:
            return ("C08/ce-changed-by-unrelated-call", "%r changed CE from %d to %d" % (op, p["ce"], s["ce"]))
        if name == "open_rx_pipe" and ok and op[1] == 0:
            self.user0 = s["p0"]
        if name == "close_rx_pipe" and ok and op[1] == 0:
            self.user0 = None
        # whenever the radio enters RX mode ...
        if name == "listen=" and ok and op[1]:
            if regs[0] & 3 != 3:
                return ("C08/not-in-rx-mode-after-listen", "CONFIG = %02X" % regs[0])
            if self.user0 is None:
                if regs[2] & 1:
                    return ("C08/pipe0-open-in-rx-mode-although-user-never-opened-or-closed-it",
                            "EN_RXADDR = %02X, RX_ADDR_P0 = %s, TX_ADDR = %s" % (regs[2], s["p0"].hex(), s["tx_addr"].hex()))
            else:
                if not regs[2] & 1:
                    return ("C08/pipe0-closed-in-rx-mode-although-user-opened-it", "EN_RXADDR = %02X" % regs[2])
                if s["p0"][:aw] != self.user0[:aw]:
                    key = "C08/pipe0-not-on-user-address-in-rx-mode"
                    if s["p0"][:aw] == s["tx_addr"][:aw]:
                        key = "C08/pipe0-listens-on-tx-address-in-rx-mode"
                    return (key, "RX_ADDR_P0 = %s, user opened pipe 0 with register image %s (address width %d), TX_ADDR = %s"
                            % (s["p0"].hex(), self.user0.hex(), aw, s["tx_addr"].hex()))
        # immediately after open_tx_pipe() in TX mode with auto-ack on pipe 0 ...
        if name == "open_tx_pipe" and ok and regs[0] & 3 == 2 and regs[1] & 1:
            t = bytes(op[1])
            n = min(aw, len(t))
            if s["tx_addr"][:n] != t[:n]:
                return ("C08/tx-address-not-programmed", "TX_ADDR = %s after open_tx_pipe(%s)" % (s["tx_addr"].hex(), t.hex()))
            if not regs[2] & 1:
                return ("C08/ack-pipe-closed-after-open_tx_pipe",
                        "EN_RXADDR = %02X: pipe 0 is closed, no ACK can be received" % regs[2])
            if s["p0"][:aw] != s["tx_addr"][:aw]:
                return ("C08/ack-pipe-not-on-tx-address",
                        "RX_ADDR_P0 = %s but TX_ADDR = %s (address width %d)" % (s["p0"].hex(), s["tx_addr"].hex(), aw))
        return None


def nontrivial(ops):
    names = [o[0] for o in ops]
    return ("listen=" in names or "open_tx_pipe" in names) and any(n.startswith(("open_rx", "close")) for n in names)


def run(rep, model, tier, seed):
    r = common.rng(seed, "c08")
    depth = 4 if tier == "quick" else 5
    rep.rule = ("ALL call sequences up to length %d over a 13-call alphabet {open_rx_pipe(0,A|short), open_rx_pipe(1,B), "
                "close_rx_pipe(0), open_tx_pipe(A|C|short), auto_ack 0/True, listen T/F, address_length 3/5} that contain "
                "a listen or open_tx_pipe call, plus random sequences to depth 30 with more addresses/pipes/auto-ack forms; "
                "non-trivial = has a pipe-0 open/close and a role switch or open_tx_pipe; distinct = distinct sequence" % depth)
    cases = []
    for n in range(1, depth + 1):
        for w in itertools.product(ALPHABET, repeat=n):
            if any(o[0] in ("listen=", "open_tx_pipe") for o in w):
                # quick tier: at full depth keep sequences ending in the calls the property speaks about
                if n == depth and w[-1][0] not in ("listen=", "open_tx_pipe"):
                    continue
                if tier != "quick" and n == depth and (len(cases) % 3):
                    # thorough, depth 5: every third of the sequences ending in a call the property speaks about
                    cases.append(None)
                    continue
                cases.append(list(w))
    corpus = [
        [("listen=", False), ("close_rx_pipe", 0), ("open_tx_pipe", C)],                       # F8
        [("auto_ack=", 0), ("listen=", False), ("auto_ack=", True), ("open_tx_pipe", C)],      # F8
        [("open_rx_pipe", 0, A), ("listen=", True), ("listen=", False), ("open_tx_pipe", C), ("open_tx_pipe", A)],  # F9
        [("open_rx_pipe", 0, S3), ("listen=", False), ("open_tx_pipe", C), ("listen=", True)],  # F10
        [("open_rx_pipe", 0, A), ("open_rx_pipe", 1, B), ("close_rx_pipe", 0), ("listen=", False), ("listen=", True)],
    ]
    cases = [c for c in cases if c is not None]
    R.check_cases(rep, model, corpus, "corpus", [True], [0], make_rf24, Checker, nontrivial)
    R.check_cases(rep, model, cases, "exhaustive", [True], [0], make_rf24, Checker, nontrivial)
    rep.exhaustive.append("all sequences up to length %d over the 13-call alphabet; at length %d those ending in listen=/open_tx_pipe%s (%d in all)" % (
        depth - 1, depth, "" if tier == "quick" else ", every third", len(cases)))
    extra = ALPHABET + [("open_rx_pipe", 2, b"3Node"), ("open_rx_pipe", 5, b"6"), ("close_rx_pipe", 1), ("close_rx_pipe", 2),
                        ("set_auto_ack", False, 0), ("set_auto_ack", True, 0), ("auto_ack=", 0x3E), ("auto_ack=", [0, 1]),
                        ("open_rx_pipe", 0, b"\xe7" * 5), ("open_tx_pipe", b"\xe7" * 5), ("open_rx_pipe", 0, bytearray(b"1Nodx")),
                        ("address_length=", 4), ("ack=", True), ("ack=", False), ("power=", True)]
    nrand = 300 if tier == "quick" else 6000
    rnd = [[r.choice(extra) for _ in range(r.randrange(3, 31))] for _ in range(nrand)]
    R.check_cases(rep, model, rnd, "random", [True], [0], make_rf24, Checker, nontrivial)
    # role cycles: what a ping-pong application does -- (re)open the TX pipe, listen, stop listening, again and again
    addrs = [A, B, C, S3, S2, b"\xe7" * 5]
    cyc = []
    for _ in range(250 if tier == "quick" else 5000):
        seq = []
        for _ in range(r.randrange(2, 5)):
            if r.random() < 0.4:
                seq.append(("open_rx_pipe", 0, r.choice(addrs)) if r.random() < 0.8 else ("close_rx_pipe", 0))
            if r.random() < 0.8:
                seq.append(("open_tx_pipe", r.choice(addrs)))
            if r.random() < 0.15:
                seq.append(r.choice(extra))
            seq += [("listen=", True), ("listen=", False)] if r.random() < 0.85 else [("listen=", True)]
        cyc.append(seq)
    R.check_cases(rep, model, cyc, "role-cycles", [True], [0], make_rf24, Checker, nontrivial)
    rep.extra["also_sampled_only"] = True


def replay(path):
    return R.replay_cases(path, make_rf24, Checker)
